"""
C20 -- generated HTML documentation is well-formed, escaped and internally linked.

Domain
  DSDL universes from the shared generator (1..2 root namespaces, nested namespaces, structures / unions / services, several
  versions, arrays of composites, cross-namespace and cross-root references, keyword-like names), decorated here with
  * documentation comments on types, service responses, fields, constants and padding; every comment line carries one unique
    alphanumeric sentinel VFS<n>X wrapped in hostile markup (element with attributes, <script>, </pre>, end tags, comment open
    / close, CDATA, processing instruction, entities, quotes, Jinja syntax, unicode incl. bidi controls) plus random atoms;
  * namespace documentation types (`_.0.1.dsdl`);
  * character constants '<' '&' '>' '"'.
  Names are identifiers by the DSDL grammar (the front end rejects anything else), so only comments can carry markup characters.
  Every root namespace of a universe is generated into ONE output directory (one nnvg run per root, dependent roots with
  --lookup-dir), which is how a user obtains a linked tree:  <out>/<ns path>/index.html per namespace (the page shows the
  whole sub-tree; every type is a <div id="<full_name with _>_<major>_<minor>">) and <out>/<ns path>/<Type>_<M>_<m>.html per type.

Oracle (every clause is one clause of the property statement)
  (a) balance: strict stack discipline over html.parser tokens.  Void elements never have an end tag; script/style are raw
      text; EVERY other start tag needs its own end tag and every end tag must close the innermost open element; nothing may
      be open at EOF.  HTML5 allows some end tags to be omitted (</p>, </li>, ...): the project's templates never use that
      licence (measured: 0 problems on the benign twin pages of every universe), so the strict rule is the baseline; on top of
      it the two HTML5 situations in which textually balanced tags are still mis-nested are reported: a block-level start tag
      while a <p> is open (the parser closes the <p>, its later </p> is stray) and <a> inside <a>.  A bare '<' that does not
      start a tag ("[<=2]") is character data for every HTML5 tokenizer and is not reported.
  (b) escaping: every page is rendered twice, from the universe (A) and from its benign twin (B: same names and graph, every
      comment line replaced by "doc VFS<n>X").  For every comment line whose sentinel occurs in the page source:
      the sentinel must not occur in any tag name, attribute, comment, declaration, processing instruction or script/style
      text, and the line as the front end reports it (pydsdl `.doc`) must occur verbatim in the entity-decoded character data
      exactly as often as the sentinel occurs in the source.  Catch-all: the markup token sequence of A must equal that of B.
      Attribution is per emission site (= template expression).  Stage 1: failing lines that contain '<' or '&' and stand in
      the source unescaped are "raw-markup".  Because one raw line can swallow its neighbours (open comment, <style> up to
      EOF), stage 2 judges the remaining lines on the page with every raw-emitted line replaced by its benign twin text, so
      each line is judged on its own merits ("text-altered").
      Type names/versions (type pages) and `NAME = value` of every listed constant must be present in the character data
      (constants of types called "_" are exempt: that name is the namespace-documentation carrier and is not listed).
  (c) links (evaluated on B so that an escaping defect cannot hide or fake link defects): every <a href> except the
      javascript: toggles is resolved against the page's location in the output tree (a directory URL means its index.html:
      `namespace_file_stem: index` is the generator's own convention); it must name a generated file and its fragment must
      be an id of that file.  Same-page links (#id, side bar) must name an id of the page.  The hard-coded
      `/reg/Namespace.html` back link of type pages is a namespace reference, not a type reference: counted, not judged.
      Uniqueness of ids is not part of the statement: counted, not judged.

Signatures name the emission site / construct, not the input:
  escape|type-doc|raw-markup  escape|attr-doc|raw-markup  escape|namespace-doc|raw-markup  escape|type-doc@type-page|raw-markup
  escape|<site>|text-altered  escape|constant-value|text-missing  escape|name|text-missing  escape|unattributed|structure-...
  balance|<page kind>|<problem>:<tag>|innermost-open:<tag>
  link|nested-namespace|file-missing  link|root-namespace|file-missing  link|<same-root|cross-root>|anchor-missing
  link|service-request-response|anchor-missing  link|underscore-type|anchor-missing
  link|sidebar-type|anchor-missing  link|sidebar-namespace|anchor-missing

Campaign: 3 fixed anchor universes (every interesting class at least once) + N Hypothesis-drawn universes (quick 20, thorough
600), evaluated in a fork pool (the check is a pure function of the case); all signatures are collected (links and balance are
judged on the twin, i.e. behind an escaping defect); one representative per unknown signature is minimised by bounded greedy
delta debugging on the universe (drop types / attributes / comment lines, <= 45 re-executions).
"""
from __future__ import annotations

import collections
import copy
import html.parser
import multiprocessing
import os
import pathlib
import posixpath
import re
import shutil
import tempfile
import traceback
import typing
import urllib.parse

from hypothesis import strategies as st

from .. import core, dsdlgen, tool

TOKEN_RE = re.compile(r"VFS(\d+)X", re.I)
SIGNIFICANT = "<>&\"'"

# (class, text) -- {s} is replaced by the sentinel; exactly one sentinel per line
WRAPPERS = [
    ("elem-attr", "<i id={s}>it</i>"),
    ("script", "<script>{s}()</script>"),
    ("close-pre", '</pre><b class="{s}">'),
    ("img-onerror", "<img src=x onerror={s}()>"),
    ("comment-close", "--><{s}>"),
    ("cdata", "<![CDATA[{s}]]>"),
    ("comment-open", "<!-- {s}"),
    ("end-tags", "</div></div></p>{s}"),
    ("svg-onload", "</script><svg/onload={s}()>"),
    ("entities", "&lt;{s}&amp;&#60;&quot;&copy"),
    ("lt-amp-text", "a < {s} && c > d"),
    ("quotes", "\"' {s} '\" onmouseover=\"x"),
    ("unicode", "é ❤ 中 \u202e{s}\u202c ß"),
    ("plain", "plain {s}"),
    ("rcdata-close", "</textarea></title></style>{s}"),
    ("js-href", '<a href="javascript:{s}()">x</a>'),
    ("jinja", "{{ {s} }} {% raw %} {# c #}"),
    ("pi-doctype", "<?php {s} ?><!DOCTYPE x>"),
]
ATOMS = [a for a in dsdlgen.DOC_ATOMS] + ["üñî", "<", "&", ">", "&#x3c;", "<br>", "</html>", "<p>", "]]>", "<style>*{}"]
CHAR_CONSTS = ["'<'", "'&'", "'>'", "'\"'", "'/'"]


# --------------------------------------------------------------------------------------------------------------- strategy
def _bodies(td: dict) -> typing.List[dict]:
    return [td["body"]] if td["kind"] != "service" else [td["body"]["request"], td["body"]["response"]]


@st.composite
def adv_line(draw, counter: typing.List[int]) -> str:
    tok = f"VFS{counter[0]}X"
    counter[0] += 1
    w = draw(st.sampled_from(WRAPPERS))[1].replace("{s}", tok)
    pre = draw(st.lists(st.sampled_from(ATOMS), max_size=2))
    post = draw(st.lists(st.sampled_from(ATOMS), max_size=1))
    return " ".join(pre + [w] + post)


@st.composite
def case_strategy(draw) -> dict:
    u = draw(
        dsdlgen.universe(
            profile="mixed", max_types=5, max_roots=2, max_fields=4, max_consts=2, max_depth=3, docs="none", attr_docs="none", max_ref_bits=1500
        )
    )
    counter = [0]
    for r in u["roots"]:
        for td in r["types"]:
            td["doc"] = [draw(adv_line(counter)) for _ in range(draw(st.sampled_from([0, 1, 1, 2, 3])))]
            if td["kind"] == "service" and draw(st.booleans()):
                td["response_doc"] = [draw(adv_line(counter))]
            for b in _bodies(td):
                # the shared generator's "@extent _offset_.max + ..." makes the FRONT END expand the whole bit length set, which
                # takes minutes for bodies with several variable-length members; such bodies are sealed here (irrelevant to HTML)
                heavy = sum(1 for a in b["attrs"] if a["k"] == "field" and a["type"]["t"] in ("varr", "ref", "farr") and (a["type"]["t"] != "farr" or a["type"]["elem"]["t"] == "ref"))
                if heavy > 1 or any(a["k"] == "field" and "ref" in (a["type"]["t"], a["type"].get("elem", {}).get("t")) for a in b["attrs"]):
                    b["sealed"] = True
                for a in b["attrs"]:
                    if draw(st.integers(0, 2)) == 0:
                        a["doc"] = draw(adv_line(counter))
                    if a["k"] == "const" and a["type"]["t"] == "uint" and a["type"]["bits"] == 8 and draw(st.booleans()):
                        a["value"] = draw(st.sampled_from(CHAR_CONSTS))
        # namespace documentation: a type called "_" (version 0.1) in some namespaces
        nss = sorted({tuple(td["ns"]) for td in r["types"]})
        for ns in nss:
            taken = {dsdlgen.fold(td["name"]) for td in r["types"] if tuple(td["ns"]) == ns}
            taken |= {dsdlgen.fold(o[len(ns)]) for o in nss if len(o) > len(ns) and o[: len(ns)] == ns}
            if "_" not in taken and draw(st.integers(0, 2)) == 0:
                r["types"].append(
                    {
                        "ns": list(ns), "name": "_", "major": 0, "minor": 1, "port_id": None, "kind": "struct", "deprecated": False,
                        "doc": [draw(adv_line(counter)) for _ in range(draw(st.integers(1, 2)))],
                        "body": {"union": False, "sealed": True, "extent_extra": 0, "attrs": []},
                    }
                )
    return {"universe": u}


def twin(u: dict) -> dict:
    """Same names, same type graph, same comment positions; every comment line replaced by benign text with the same sentinel."""

    def benign(line: str) -> str:
        m = TOKEN_RE.search(line)
        return "doc " + (m.group(0) if m else "x")

    b = copy.deepcopy(u)
    for r in b["roots"]:
        for td in r["types"]:
            td["doc"] = [benign(l) for l in td.get("doc") or []]
            if td.get("response_doc"):
                td["response_doc"] = [benign(l) for l in td["response_doc"]]
            for bd in _bodies(td):
                for a in bd["attrs"]:
                    if a.get("doc"):
                        a["doc"] = benign(a["doc"])
    return b


# ---------------------------------------------------------------------------------------------------------- fixed anchors
def _u8():
    return {"t": "uint", "bits": 8, "cast": "saturated"}


def _ref(full, major=1, minor=0):
    return {"t": "ref", "full": full, "major": major, "minor": minor}


def _td(ns, name, attrs, doc=(), kind="struct", major=1, minor=0, **kw):
    body = {"union": kind == "union", "sealed": True, "extent_extra": 0, "attrs": attrs}
    td = {"ns": ns, "name": name, "major": major, "minor": minor, "port_id": None, "kind": kind, "deprecated": False, "doc": list(doc), "body": body}
    td.update(kw)
    return td


def anchor_universes() -> typing.List[dict]:
    """Three hand-written universes that contain every interesting class at least once (the random campaign adds volume)."""
    f = lambda t, n, doc=None: {"k": "field", "type": t, "name": n, "doc": doc}  # noqa: E731
    a = _td(["r1"], "A", [f(_u8(), "x", "<i id=VFS2X>it</i> & co"), {"k": "const", "type": _u8(), "name": "K", "value": "'<'", "doc": "a < VFS3X && c > d"}],
            doc=["</pre><script>VFS0X()</script> &amp;", '"quoted" <b class="VFS1X">'])
    b = _td(["r1", "sub"], "B", [f(_ref("r1.A"), "a"), f({"t": "varr", "elem": _ref("r1.A"), "cap": 2, "incl": True}, "arr", "--><VFS5X>")], doc=["<!-- VFS4X"])
    c = _td(["r1", "sub", "deep"], "C", [f(_ref("r1.sub.B"), "b"), f(_u8(), "y")], doc=["plain VFS6X"], kind="union")
    c["body"]["union"] = True
    nsdoc = _td(["r1", "sub"], "_", [], doc=["<script>VFS7X()</script>"], major=0, minor=1)
    a2 = _td(["r1"], "A", [f({"t": "bool"}, "flag")], doc=["&lt;VFS8X&amp;&#60;&quot;&copy"], major=2, minor=1)
    d = _td(["r2"], "D", [f(_ref("r1.sub.B"), "b"), f({"t": "farr", "elem": _ref("r1.A"), "n": 3}, "arr"), {"k": "void", "bits": 3, "doc": "</div></div></p>VFS9X"}],
            doc=["é ❤ 中 \u202eVFS10X\u202c ß"])
    s = {"ns": ["r2", "svc"], "name": "S", "major": 1, "minor": 0, "port_id": 77, "kind": "service", "deprecated": False, "doc": ["<img src=x onerror=VFS11X()>"],
         "response_doc": ["<![CDATA[VFS12X]]>"],
         "body": {"request": {"union": False, "sealed": True, "extent_extra": 0, "attrs": [f(_u8(), "q", "{{ VFS13X }} {% raw %} {# c #}")]},
                  "response": {"union": False, "sealed": True, "extent_extra": 0, "attrs": [f(_ref("r1.A"), "a"), f(_ref("r2.D"), "d")]}}}
    u1 = {"roots": [{"name": "r1", "types": [a, a2, b, c, nsdoc]}, {"name": "r2", "types": [d, s]}]}
    # benign-only universe: the strict balance rule and the link rule on pages without any hostile text
    p = _td(["plainroot"], "P", [f(_u8(), "x", "plain VFS1X")], doc=["plain VFS0X"])
    q = _td(["plainroot", "inner"], "Q", [f(_ref("plainroot.P"), "p"), f({"t": "varr", "elem": _ref("plainroot.P"), "cap": 3, "incl": True}, "ps")], doc=["plain VFS2X"])
    u2 = {"roots": [{"name": "plainroot", "types": [p, q]}]}
    # "_" (legal DSDL name, the namespace-documentation carrier of the HTML target) with content, referenced by another type
    us = _td(["r3"], "_", [f(_u8(), "x"), {"k": "const", "type": {"t": "bool"}, "name": "FLAG", "value": "true"}], doc=["plain VFS0X"])
    uu = _td(["r3"], "U", [f(_ref("r3._"), "carrier"), {"k": "const", "type": {"t": "bool"}, "name": "B", "value": "true"},
                           {"k": "const", "type": {"t": "float", "bits": 32, "cast": "saturated"}, "name": "THIRD", "value": "1/3"}], doc=["plain VFS1X"])
    u3 = {"roots": [{"name": "r3", "types": [us, uu]}]}
    # namespaces whose full names are string prefixes of one another WITHOUT a dot boundary (plant.pump / plant.pumpctl, roots
    # ns / ns2), referencing each other in every direction: "is this type on this page?" must not be a string-prefix test
    mode = _td(["plant", "pumpctl"], "Mode", [f(_u8(), "m")], doc=["plain VFS0X"])
    pump = _td(["plant", "pump"], "Pump", [f(_ref("plant.pumpctl.Mode"), "mode"), f(_u8(), "rpm")], doc=["plain VFS1X"])
    ctl = _td(["plant", "pumpctl"], "Ctl", [f(_ref("plant.pump.Pump"), "pump"), f({"t": "varr", "elem": _ref("plant.pumpctl.Mode"), "cap": 2, "incl": True}, "modes")], doc=["plain VFS2X"])
    top = _td(["plant"], "Top", [f(_ref("plant.pump.Pump"), "p"), f(_ref("plant.pumpctl.Ctl"), "c")], doc=["plain VFS3X"])
    deep = _td(["plant", "pump", "x"], "Deep", [f(_ref("plant.pumpctl.Mode"), "m"), f(_ref("plant.Top"), "t")], doc=["plain VFS4X"])
    other = _td(["plant2"], "Other", [f(_ref("plant.pumpctl.Mode"), "m"), f(_ref("plant.Top"), "t")], doc=["plain VFS5X"])
    other2 = _td(["plant2", "pump"], "Other2", [f(_ref("plant2.Other"), "o"), f(_ref("plant.pump.Pump"), "p")], doc=["plain VFS6X"])
    u4 = {"roots": [{"name": "plant", "types": [mode, pump, ctl, top, deep]}, {"name": "plant2", "types": [other, other2]}]}
    return [u1, u2, u3, u4]


# ------------------------------------------------------------------------------------------------------------- HTML pages
VOID = {"area", "base", "br", "col", "embed", "hr", "img", "input", "link", "meta", "param", "source", "track", "wbr"}
RAWTEXT = {"script", "style"}
P_CLOSERS = {
    "address", "article", "aside", "blockquote", "center", "details", "dialog", "dir", "div", "dl", "fieldset", "figcaption", "figure",
    "footer", "form", "h1", "h2", "h3", "h4", "h5", "h6", "header", "hgroup", "hr", "main", "menu", "nav", "ol", "p", "pre", "section",
    "table", "ul", "li", "dd", "dt",
}
SCOPE_BOUNDARY = {"applet", "caption", "html", "table", "td", "th", "marquee", "object", "template", "button"}


class Page(html.parser.HTMLParser):
    """Token stream, strict balance bookkeeping, character data, ids and links of one page."""

    def __init__(self, src: str):
        super().__init__(convert_charrefs=True)
        self.events: typing.List[tuple] = []
        self.epos: typing.List[int] = []  # absolute source offset of every event
        self._line_start = [0]
        for m in re.finditer("\n", src):
            self._line_start.append(m.end())
        self.stack: typing.List[dict] = []
        self.problems: typing.List[typing.Tuple[str, str, str, str]] = []  # (kind, tag, innermost open tag, detail)
        self.text: typing.List[str] = []
        self.rawtext: typing.List[str] = []
        self.ids: typing.Counter[str] = collections.Counter()
        self.links: typing.List[dict] = []
        self.has_service = False
        self.feed(src)
        self.close()
        if self.stack:
            self._problem("unclosed-at-eof", self.stack[-1]["tag"])

    # -- helpers
    def path(self, n: int = 7) -> str:
        def one(e):
            s = e["tag"]
            if e["attrs"].get("id"):
                s += "#" + str(e["attrs"]["id"])
            elif str(e["attrs"].get("class") or "").split():
                s += "." + str(e["attrs"]["class"]).split()[0]
            return s

        items = [one(e) for e in self.stack]
        return (".. > " if len(items) > n else "") + " > ".join(items[-n:])

    def _ev(self, *ev):
        line, col = self.getpos()
        self.events.append(ev)
        self.epos.append(self._line_start[min(line - 1, len(self._line_start) - 1)] + col)

    def _problem(self, kind: str, tag: str):
        top = self.stack[-1]["tag"] if self.stack else "none"
        line, col = self.getpos()
        self.problems.append((kind, tag, top, f"{kind} <{tag}> at line {line} col {col}; open elements: {self.path() or '(none)'}"))

    # -- tokens
    def handle_starttag(self, tag, attrs):
        self._start(tag, attrs, False)

    def handle_startendtag(self, tag, attrs):
        # HTML5 ignores the trailing slash on non-void HTML elements: it is a start tag
        self._start(tag, attrs, True)

    def _start(self, tag, attrs, selfclosing):
        self._ev("s", tag, tuple((k, v) for k, v in attrs))
        ad = {}
        for k, v in attrs:
            ad.setdefault(k, v)
        if ad.get("id") is not None:
            self.ids[ad["id"]] += 1
        if tag == "span" and ad.get("class") == "service":
            self.has_service = True
        if tag in P_CLOSERS:
            for e in reversed(self.stack):
                if e["tag"] == "p":
                    self._problem("block-in-p", tag)
                    break
                if e["tag"] in SCOPE_BOUNDARY:
                    break
        if tag == "a" and any(e["tag"] == "a" for e in self.stack):
            self._problem("a-in-a", tag)
        if tag in VOID:
            return
        ent = {"tag": tag, "attrs": ad, "link": None}
        if tag == "a" and ad.get("href") is not None:
            ent["link"] = {
                "href": ad["href"], "id": ad.get("id"), "cls": ad.get("class") or "", "text": "", "line": self.getpos()[0],
                "ctx_ids": [e["attrs"]["id"] for e in self.stack if e["attrs"].get("id")],
            }
            self.links.append(ent["link"])
        self.stack.append(ent)

    def handle_endtag(self, tag):
        self._ev("e", tag)
        if tag in VOID:
            self._problem("end-tag-for-void", tag)
            return
        if self.stack and self.stack[-1]["tag"] == tag:
            self.stack.pop()
        elif any(e["tag"] == tag for e in self.stack):
            self._problem("mismatched-end", tag)
            while self.stack.pop()["tag"] != tag:
                pass
        else:
            self._problem("stray-end", tag)

    def handle_data(self, data):
        if self.stack and self.stack[-1]["tag"] in RAWTEXT:
            self.rawtext.append(data)
            return
        self.text.append(data)
        for e in self.stack:
            if e["link"] is not None:
                e["link"]["text"] += data

    def handle_comment(self, data):
        self._ev("comment", data)

    def handle_decl(self, decl):
        self._ev("decl", decl)

    def handle_pi(self, data):
        self._ev("pi", data)

    def unknown_decl(self, data):
        self._ev("unknown-decl", data)

    # -- derived
    def markup_tokens(self) -> typing.Dict[str, str]:
        """sentinel (upper case) -> description of the first markup construct in which it occurs"""
        out: typing.Dict[str, str] = {}
        for ev in self.events:
            if ev[0] == "s":
                hay = [("tag name", ev[1])] + [(f"attribute of <{ev[1]}>", f"{k}={v!r}") for k, v in ev[2]]
            elif ev[0] == "e":
                hay = [("end tag", ev[1])]
            else:
                hay = [(ev[0], ev[1])]
            for what, s in hay:
                for m in TOKEN_RE.finditer(s or ""):
                    out.setdefault(m.group(0).upper(), f"{what} {s[:80]!r}")
        for s in self.rawtext:
            for m in TOKEN_RE.finditer(s):
                out.setdefault(m.group(0).upper(), f"script/style text {s[:80]!r}")
        return out


def selfcheck():
    """The instrument judged on documents whose status is known; a disagreement is a harness error, never a violation."""
    good = (
        '<!DOCTYPE html><html><head><meta name="a" content="b"><style>a>b{}</style><!-- c --><script>if(a<b){x="</div><p>"}</script></head>'
        '<body><p class="x">a &lt; b &amp; c<br><span style="color: green">[<=2]</span> <a href="#i">l</a></p>'
        '<div id="i"><pre>&lt;script&gt;VFS1X()&lt;/script&gt; &amp;amp; "q"</pre><hr><input type="search"></div></body></html>'
    )
    g = Page(good)
    if g.problems or g.markup_tokens() or '<script>VFS1X()</script> &amp; "q"' not in "".join(g.text) or g.ids != {"i": 1} or len(g.links) != 1:
        raise core.HarnessError(f"balance/escape instrument rejects a well-formed page: {g.problems} {g.markup_tokens()}")
    bad = {
        "<div><p>x</div>": "mismatched-end", "<div>x": "unclosed-at-eof", "<div>x</div></div>": "stray-end", "<p>a<div>b</div></p>": "block-in-p",
        "<a href=x><a href=y>z</a></a>": "a-in-a", "<p>x<br></br></p>": "end-tag-for-void", "<p>x<span>y</p></span>": "mismatched-end",
        "<body><script>x</body>": "unclosed-at-eof",
    }
    for src, want in bad.items():
        got = [k for k, _, _, _ in Page(src).problems]
        if not got or got[0] != want:
            raise core.HarnessError(f"balance instrument: {src!r} expected {want}, got {got}")
    for src in ("<pre><i id=VFS1X>x</i></pre>", "<pre><script>VFS1X()</script></pre>", "<pre>--><VFS1X></pre>", "<pre><!-- VFS1X --></pre>", "<pre><?php VFS1X ?></pre>",
                '<pre><a href="javascript:VFS1X()">x</a></pre>', "<pre><![CDATA[VFS1X]]></pre>"):
        if "VFS1X" not in Page(src).markup_tokens():
            raise core.HarnessError(f"escape instrument: sentinel in markup not seen in {src!r}")


# ---------------------------------------------------------------------------------------------------- running the generator
def generate(u: dict, base: pathlib.Path) -> pathlib.Path:
    src = base / "dsdl"
    out = base / "out"
    roots = dsdlgen.materialise(u, src)
    for i, r in enumerate(roots):
        argv = ["--target-language", "html", "--experimental-languages", "--allow-unregulated-fixed-port-id", "--outdir", str(out)]
        for other in roots[:i]:
            argv += ["--lookup-dir", str(other)]
        argv.append(str(r))
        rc, so, se = tool.run_inproc(argv)
        if rc != 0:
            raise core.HarnessError(f"nnvg html generation failed rc={rc} for root {r.name}: {se[-1500:]}")
    return out


def model_facts(u: dict, base: pathlib.Path):
    """What the (trusted) front end reports: comment lines by sentinel, constants, type names."""
    try:
        models = dsdlgen.read(u, base / "dsdl")
    except Exception as e:
        raise core.HarnessError(f"front end rejected a generated universe: {type(e).__name__}: {e}")
    import pydsdl

    docs: typing.Dict[str, dict] = {}
    consts: typing.List[dict] = []
    types: typing.List[dict] = []

    def add_doc(text, origin, where):
        for line in (text or "").split("\n"):
            for m in TOKEN_RE.finditer(line):
                docs.setdefault(m.group(0).upper(), {"line": line, "origin": origin, "where": where})

    for root, ts in models.items():
        for t in ts:
            types.append({"full": t.full_name, "ns": t.full_namespace, "short": t.short_name, "v": [t.version.major, t.version.minor], "service": isinstance(t, pydsdl.ServiceType)})
            subs = [t] + ([t.request_type, t.response_type] if isinstance(t, pydsdl.ServiceType) else [])
            for x in subs:
                add_doc(getattr(x, "doc", ""), "namespace-doc" if t.short_name == "_" else "type-doc", f"{x.full_name}.{x.version.major}.{x.version.minor}")
                if x is t and isinstance(t, pydsdl.ServiceType):
                    continue
                for a in x.attributes:
                    add_doc(getattr(a, "doc", ""), "attr-doc", f"{x.full_name}.{x.version.major}.{x.version.minor}:{a.name or 'void'}")
                for c in x.constants:
                    if t.short_name == "_":
                        continue  # "_" is the namespace-documentation carrier: by design not listed as a type
                    consts.append({"type": t.full_name, "ns": t.full_namespace, "name": c.name, "value": str(c.value)})
    return docs, consts, types


def ir_tokens(u: dict) -> typing.Set[str]:
    out = set()
    for r in u["roots"]:
        for td in r["types"]:
            for l in list(td.get("doc") or []) + list(td.get("response_doc") or []):
                out.update(m.group(0).upper() for m in TOKEN_RE.finditer(l))
            for b in _bodies(td):
                for a in b["attrs"]:
                    if a.get("doc"):
                        out.update(m.group(0).upper() for m in TOKEN_RE.finditer(a["doc"]))
    return out


def read_tree(out: pathlib.Path) -> typing.Dict[str, str]:
    res = {}
    for rel, data in tool.tree_files(out).items():
        res[rel.replace(os.sep, "/")] = data.decode("utf-8")
    return res


def _snip(src: str, needle: str, width: int = 110) -> str:
    i = src.find(needle)
    if i < 0:
        return "(not in source)"
    return src[max(0, i - width) : i + len(needle) + width].replace("\n", "\\n")


def _dsdl_of(u: dict, where: str) -> str:
    """DSDL file text of the type named by a `where` string ("full.name.M.m[:attr]")."""
    key = where.split(":")[0]
    for r in u["roots"]:
        for td in r["types"]:
            k = ".".join(td["ns"] + [td["name"], str(td["major"]), str(td["minor"])])
            if key == k or key.startswith(".".join(td["ns"] + [td["name"]]) + ".") and key.endswith(f".{td['major']}.{td['minor']}"):
                return f"{dsdlgen.typedef_relpath(td)}: {dsdlgen.typedef_text(td)!r}"
    return "?"


# ------------------------------------------------------------------------------------------------------------- the check
# set by run() before the workers are forked: every scratch tree lives below it, so that nothing is left behind even when the
# pool is torn down while a worker is in the middle of a case
_SCRATCH_PARENT: typing.Optional[str] = None


def check_universe(case: dict) -> dict:
    """
    Returns {"fails": [(signature, what)], "pages": [(key, nontrivial, classes, sample)], "classes": {..}, "obs": {..}}.
    Pure function of the case (and of the tree under test); used by workers, by replay and by the minimiser.
    """
    u = case["universe"]
    fails: typing.List[typing.Tuple[str, str]] = []
    pages_out = []
    classes: typing.Counter[str] = collections.Counter()
    obs: typing.Counter[str] = collections.Counter()
    base = pathlib.Path(tempfile.mkdtemp(prefix="vf-c20-", dir=_SCRATCH_PARENT))
    try:
        dsdlgen.materialise(u, base / "A" / "dsdl")
        docs, consts, types = model_facts(u, base / "A")
        out_a = generate(u, base / "A")
        out_b = generate(twin(u), base / "B")
        src_a = read_tree(out_a)
        src_b = read_tree(out_b)
    finally:
        shutil.rmtree(base, ignore_errors=True)
    if sorted(src_a) != sorted(src_b):
        raise core.HarnessError(f"twin universe produced a different file set: {sorted(src_a)} vs {sorted(src_b)}")
    missing = ir_tokens(u) - set(docs)
    if missing and not docs:
        raise core.HarnessError("front end reports none of the generated comment lines")
    obs["doc_lines_not_reported_by_front_end"] += len(missing)
    classes["universes"] += 1
    for f in dsdlgen.features(u):
        if f in ("multi_root", "multi_version", "empty_intermediate_ns", "kind.service", "kind.union", "deprecated", "port_id", "farr.of.ref", "varr.of.ref"):
            classes["universe." + f] += 1

    pa = {rel: Page(s) for rel, s in src_a.items()}
    pb = {rel: Page(s) for rel, s in src_b.items()}
    roots = [r["name"] for r in u["roots"]]
    seen_sig: typing.Set[str] = set()

    def fail(sig, what):
        if sig not in seen_sig:
            seen_sig.add(sig)
            fails.append((sig, what))

    for rel in sorted(src_a):
        sa, A, B = src_a[rel], pa[rel], pb[rel]
        is_ns = posixpath.basename(rel) == "index.html"
        depth = rel.count("/")
        kind = "namespace-page" if is_ns else "type-page"
        pcls = [("page.namespace.root" if depth == 1 else "page.namespace.nested") if is_ns else "page.type"]
        if sa == "":
            pcls.append("page.empty")
            obs["empty_page(service type page)"] += 1

        # ---- (b) escaping
        tok_src = collections.Counter(m.group(0).upper() for m in TOKEN_RE.finditer(sa))
        order = sorted(tok_src, key=lambda t: int(t[3:-1]))
        escape_failed = False
        significant_here = False
        site_of = {}
        for tok in order:
            d = docs.get(tok)
            if d is None:
                raise core.HarnessError(f"sentinel {tok} in {rel} is not a comment line known to the front end")
            line = d["line"]
            site_of[tok] = d["origin"] if is_ns else "type-doc@type-page"  # one name per template expression
            pcls.append("doc.site." + site_of[tok])
            if any(c in SIGNIFICANT for c in line):
                significant_here = True
            for c, n in (("<", "doc.lt"), ("&", "doc.amp"), (">", "doc.gt"), ('"', "doc.dquote"), ("'", "doc.squote")):
                if c in line:
                    pcls.append(n)
            if any(ord(c) > 127 for c in line):
                pcls.append("doc.unicode")

        def judge(P: Page, src: str, toks) -> typing.Dict[str, typing.List[str]]:
            in_markup = P.markup_tokens()
            text = "".join(P.text)
            utext = text.upper()
            res = {}
            for tok in toks:
                bad = []
                if tok in in_markup:
                    bad.append(f"sentinel arrived as markup ({in_markup[tok]})")
                n_src, n_txt, n_line = src.upper().count(tok), utext.count(tok), text.count(docs[tok]["line"])
                if not (n_src == n_txt == n_line):
                    bad.append(f"sentinel occurs {n_src}x in the page source, {n_txt}x in its character data, the comment line verbatim {n_line}x")
                if bad:
                    res[tok] = bad
            return res

        def report(tok, mode, bad, src):
            d = docs[tok]
            fail(
                f"escape|{site_of[tok]}|{mode}",
                f"{rel}: comment line {d['line']!r} of {d['where']} ({d['origin']}): " + "; ".join(bad)
                + f". HTML: ...{_snip(src, tok)}... DSDL: {_dsdl_of(u, d['where'])}",
            )

        # stage 1: lines with '<' or '&' that are in the source unescaped and did not arrive as text: emitted raw
        raw_emitted = [t for t in order if any(c in docs[t]["line"] for c in "<&") and docs[t]["line"] in sa]
        bad1 = judge(A, sa, order)
        culprits = [t for t in raw_emitted if t in bad1]
        for t in culprits:
            escape_failed = True
            report(t, "raw-markup", bad1[t], sa)
        # stage 2: one raw line can swallow its neighbours (open comment, <style> up to EOF, ...).  The remaining lines are
        # judged on the page with every raw-emitted line replaced by its benign twin text, i.e. each on its own merits.
        A2, s2 = A, sa
        if culprits:
            for t in raw_emitted:
                s2 = s2.replace(docs[t]["line"], "doc " + t)
            A2 = Page(s2)
            bad2 = judge(A2, s2, [t for t in order if t not in raw_emitted])
        else:
            bad2 = bad1
        for t, bad in bad2.items():
            escape_failed = True
            report(t, "text-altered", bad, s2)
        if A2.events != B.events and not bad2:
            # catch-all: the markup depends on comment text although every line arrived verbatim for this tokenizer (e.g. an
            # unterminated "<!--" which html.parser flushes as text at EOF).  Attributed to the nearest comment line emitted
            # raw before the first diverging token; otherwise reported unattributed.
            i = next((k for k, (x, y) in enumerate(zip(A2.events, B.events)) if x != y), min(len(A2.events), len(B.events)))
            at = A2.epos[i] if i < len(A2.epos) else len(s2)
            best = None
            for tok in order:
                line = docs[tok]["line"]
                if any(c in line for c in "<&"):
                    for m in re.finditer(re.escape(line), s2):
                        if m.start() <= at and (best is None or m.start() > best[0]):
                            best = (m.start(), tok)
            desc = (
                f"markup token #{i} is {A2.events[i] if i < len(A2.events) else 'EOF'} with the hostile comments but "
                f"{B.events[i] if i < len(B.events) else 'EOF'} with benign comments of the same shape"
            )
            if best is not None:
                report(best[1], "raw-markup", [f"emitted raw and changes the page structure: {desc}"], s2)
            else:
                fail("escape|unattributed|structure-depends-on-comment-text", f"{rel}: {desc}")
            escape_failed = True
        if escape_failed:
            pcls.append("page.escape_failed")

        # ---- (a) balance: the templates' own structure on the benign twin; the hostile page when escaping held
        if B.problems:
            k, tag, top, detail = B.problems[0]
            fail(f"balance|{kind}|{k}:{tag}|innermost-open:{top}", f"{rel} (benign comments): {detail}" + (f" (+{len(B.problems) - 1} consequential)" if len(B.problems) > 1 else ""))
        elif A.problems and not escape_failed:
            k, tag, top, detail = A.problems[0]
            fail(f"balance|{kind}|text-dependent|{k}:{tag}", f"{rel}: {detail}; the benign twin page is balanced")
        if A.problems and escape_failed and not B.problems:
            obs["pages_unbalanced_by_injected_markup"] += 1

        # ---- names and constants (character data of the hostile page unless its structure is already destroyed)
        T = B if escape_failed else A
        ttext = " ".join("".join(T.text).split())
        if not is_ns and sa != "":
            me = [t for t in types if posixpath.join(*t["ns"].split("."), f"{t['short']}_{t['v'][0]}_{t['v'][1]}.html") == rel]
            if len(me) == 1:
                want = f"{me[0]['full']} (v{me[0]['v'][0]}.{me[0]['v'][1]})"
                if want not in ttext:
                    fail("escape|name|text-missing", f"{rel}: type page does not show {want!r}")
        if is_ns:
            ns = rel[: -len("/index.html")].replace("/", ".")
            for c in consts:
                if c["ns"] == ns or c["ns"].startswith(ns + "."):
                    pcls.append("const.checked")
                    if not re.search(r"(?<![A-Za-z0-9_])" + re.escape(f"{c['name']} = {c['value']}") + r"(?![0-9A-Za-z_./])", ttext):
                        fail("escape|constant-value|text-missing", f"{rel}: constant {c['type']}.{c['name']} = {c['value']} is not shown as text 'NAME = value'")

        # ---- (c) links, on the benign twin
        cross_ns = False
        for l in B.links:
            href = l["href"]
            if href.lower().startswith("javascript:"):
                continue
            pu = urllib.parse.urlsplit(href)
            if pu.scheme or pu.netloc:
                obs["external_a_href"] += 1
                continue
            frag = urllib.parse.unquote(pu.fragment)
            if pu.path == "":
                lk = "sidebar-type" if (l["id"] or "").endswith("_sidebar") else ("sidebar-namespace" if "fst-italic" in l["cls"] else "same-page")
                pcls.append("link." + lk)
                if frag and B.ids.get(frag, 0) == 0:
                    fail(f"link|{lk}|anchor-missing", f"{rel} line {l['line']}: href={href!r} ({' '.join(l['text'].split())!r}) but the page has no element with id {frag!r}")
                continue
            if pu.path.startswith("/"):
                if not is_ns and href == "/reg/Namespace.html":
                    obs["type_page_backlink_is_hardcoded_/reg/Namespace.html"] += 1
                    continue
                fail(f"link|{kind}|absolute-path", f"{rel} line {l['line']}: href={href!r} cannot be resolved inside the generated tree")
                continue
            # a reference to a type: <a href="../<root>/#<tag>">full.name (vM.m)</a>
            ltxt = " ".join(l["text"].split())
            target_root = ltxt.split(".")[0] if "." in ltxt else ""
            relation = "cross-root" if target_root in roots and target_root != rel.split("/")[0] else "same-root"
            tns = ltxt.rsplit(" (v", 1)[0].rsplit(".", 1)[0] if " (v" in ltxt else ""
            if tns and tns != (rel.rsplit("/", 1)[0].replace("/", ".")):
                cross_ns = True
            in_array = any(re.search(r"_array\d+$", i) for i in l["ctx_ids"])
            pcls += ["link.type", "link." + relation] + (["link.in_array"] if in_array else []) + (["link.on_nested_namespace_page"] if is_ns and depth >= 2 else [])
            page_class = ("root-namespace" if depth == 1 else "nested-namespace") if is_ns else "type-page"
            resolved = posixpath.normpath(posixpath.join(posixpath.dirname(rel), urllib.parse.unquote(pu.path)))
            if pu.path.endswith("/") or (resolved not in src_b and any(k.startswith(resolved + "/") for k in src_b)):
                resolved = posixpath.join(resolved, "index.html")
            if resolved.startswith("../") or resolved not in src_b:
                fail(
                    f"link|{page_class}|file-missing",
                    f"{rel} line {l['line']}: <a href={href!r}>{ltxt}</a> resolves to {resolved!r} which is not a generated file "
                    f"(generated: {', '.join(k for k in sorted(src_b) if k.endswith('index.html'))})",
                )
                continue
            if frag and pb[resolved].ids.get(frag, 0) == 0:
                if re.search(r"\.(Request|Response) \(v\d+\.\d+\)$", ltxt):
                    relation = "service-request-response"  # own root cause: the two halves of a service have no anchor of their own
                elif re.search(r"\._ \(v\d+\.\d+\)$", ltxt):
                    relation = "underscore-type"  # own root cause: a type called "_" is hidden from the listing but still linked
                fail(f"link|{relation}|anchor-missing", f"{rel} line {l['line']}: <a href={href!r}>{ltxt}</a>: {resolved} has no element with id {frag!r}")
        if any(v > 1 for v in B.ids.values()):
            obs["pages_with_duplicate_ids"] += 1
        if B.has_service:
            pcls.append("page.has_service")
        if cross_ns:
            pcls.append("page.cross_namespace_link")
        nontrivial = significant_here or cross_ns
        sample = {
            "page": rel,
            "comment_lines": [docs[t]["line"] for t in sorted(tok_src, key=lambda t: int(t[3:-1]))[:2]],
            "type_links": sorted({l["href"] for l in B.links if "/" in l["href"] and not l["href"].startswith("/")})[:2],
        }
        pages_out.append((core.jhash([rel, sa]), nontrivial, sorted(set(pcls)), sample))
    for d in docs.values():
        for cls, w in WRAPPERS:
            pre, post = w.split("{s}")
            if pre in d["line"] and post in d["line"]:
                classes["wrapper." + cls] += 1
                break
    return {"fails": fails, "pages": pages_out, "classes": dict(classes), "obs": dict(obs)}


# ---------------------------------------------------------------------------------------------------------- minimisation
def _referenced(u: dict) -> typing.Set[str]:
    out: typing.Set[str] = set()
    for r in u["roots"]:
        for td in r["types"]:
            out |= dsdlgen._refs_in(td["body"])
    return out


def _prune(u: dict) -> dict:
    u["roots"] = [r for r in u["roots"] if r["types"]]
    return u


def _reductions(u: dict) -> typing.Iterator[dict]:
    """Candidate universes, large cuts first.  Each is valid by construction or is rejected by the front end (then skipped)."""
    refd = _referenced(u)
    for ri in reversed(range(len(u["roots"]))):
        for ti in reversed(range(len(u["roots"][ri]["types"]))):
            td = u["roots"][ri]["types"][ti]
            if ".".join(td["ns"] + [td["name"], str(td["major"]), str(td["minor"])]) in refd:
                continue
            c = copy.deepcopy(u)
            del c["roots"][ri]["types"][ti]
            if any(r["types"] for r in c["roots"]):
                yield _prune(c)
    for ri, r in enumerate(u["roots"]):
        for ti, td in enumerate(r["types"]):
            for bi, b in enumerate(_bodies(td)):
                for ai in reversed(range(len(b["attrs"]))):
                    if b["union"] and b["attrs"][ai]["k"] == "field" and sum(1 for a in b["attrs"] if a["k"] == "field") <= 2:
                        continue
                    c = copy.deepcopy(u)
                    del _bodies(c["roots"][ri]["types"][ti])[bi]["attrs"][ai]
                    yield c
                for ai, a in enumerate(b["attrs"]):
                    if a.get("doc"):
                        c = copy.deepcopy(u)
                        _bodies(c["roots"][ri]["types"][ti])[bi]["attrs"][ai]["doc"] = None
                        yield c
            for key in ("doc", "response_doc"):
                for li in range(len(td.get(key) or [])):
                    c = copy.deepcopy(u)
                    del c["roots"][ri]["types"][ti][key][li]
                    yield c


def minimise(case: dict, sig: str, budget: int = 45) -> typing.Tuple[dict, typing.Optional[str]]:
    """Greedy bounded delta-debugging on the universe: a budget, never a verdict."""
    cur, what = case, None
    progress = True
    while progress and budget > 0:
        progress = False
        for cand in _reductions(cur["universe"]):
            if budget <= 0:
                break
            budget -= 1
            try:
                r = check_universe({"universe": cand})
            except Exception:
                continue
            hit = [w for s, w in r["fails"] if s == sig]
            if hit:
                cur, what, progress = {"universe": cand}, hit[0], True
                break
    return cur, what


# ------------------------------------------------------------------------------------------------------------ campaign
def _work(case: dict) -> dict:
    try:
        return check_universe(case)
    except BaseException as e:  # reported by the parent as a harness error
        return {"error": f"{type(e).__name__}: {e}\n{traceback.format_exc()[-1500:]}"}


def _work_min(arg) -> typing.Tuple[str, dict, typing.Optional[str]]:
    case, sig = arg
    try:
        c, w = minimise(case, sig)
        return sig, c, w
    except BaseException:
        return sig, case, None


def _draw_cases(ctx: core.Ctx, n: int, seed_offset: int = 0) -> typing.List[dict]:
    import hypothesis
    from hypothesis import given

    cases: typing.List[dict] = []

    @hypothesis.seed(ctx.seed * 1000003 + seed_offset)
    @core.hsettings(n)
    @given(case_strategy())
    def collect(case):
        cases.append(copy.deepcopy(case))

    collect()
    return cases


def _merge(ctx: core.Ctx, case: dict, r: dict, obs: typing.Counter):
    if "error" in r:
        raise core.HarnessError(r["error"])
    for key, nontrivial, classes, sample in r["pages"]:
        ctx.case(key, nontrivial, sample=sample, classes=classes)
    for k, v in r["classes"].items():
        ctx.event(k, v)
    obs.update(r["obs"])
    for sig, what in r["fails"]:
        ctx.fail(sig, what, case)


def run(ctx: core.Ctx):
    ctx.rule = (
        "case = one generated HTML page of a universe rendered with all its root namespaces into one output tree; non-trivial = "
        "the page source contains >= 1 comment line with a markup-significant character (< > & \" ') or >= 1 link to a type of "
        "another namespace; distinct by hash of (page path, page source)"
    )
    ctx.assumptions = [
        "html.parser (CPython 3.12) token stream is the observation instrument; '<' not followed by a tag-name character is text",
        "a directory URL resolves to its index.html (the generator's namespace_file_stem is 'index')",
        "the comment text of a definition is what the front end (pydsdl .doc) reports",
        "all root namespaces of a universe are generated into one --outdir, one nnvg run per root (dependent roots with --lookup-dir)",
        "strict balance rule: optional HTML5 end tags are not tolerated because the unchanged templates never omit one (benign twin pages)",
        "type-page back link '/reg/Namespace.html', duplicate ids and empty service pages are outside the statement: counted in 'observations'",
    ]
    selfcheck()
    n = 60 if ctx.quick else 600
    cases = [{"universe": u} for u in anchor_universes()] + _draw_cases(ctx, n)
    obs: typing.Counter[str] = collections.Counter()
    import nunavut.cli  # noqa: F401  (import before fork)

    global _SCRATCH_PARENT
    workers = max(1, min(8, (os.cpu_count() or 2)))
    mp = multiprocessing.get_context("fork")
    _SCRATCH_PARENT = tempfile.mkdtemp(prefix="vf-c20-run-")
    try:
        with mp.Pool(workers) as pool:
            for case, r in zip(cases, pool.imap(_work, cases, chunksize=1)):
                _merge(ctx, case, r, obs)
            if not os.environ.get("VF_NO_SHRINK"):
                todo = [(ent["replay"], sig) for sig, ent in ctx.failures.items() if not ctx.is_known(sig)][:8]
                for sig, c, w in pool.imap(_work_min, todo, chunksize=1):
                    if w is not None:
                        ctx.set_min_replay(sig, w, c)
    finally:
        shutil.rmtree(_SCRATCH_PARENT, ignore_errors=True)
        _SCRATCH_PARENT = None
    ctx.extra["observations"] = dict(sorted(obs.items()))
    ctx.extra["universes"] = len(cases)
    ctx.require("doc.lt", 10)
    ctx.require("doc.amp", 10)
    ctx.require("doc.unicode", 3)
    ctx.require("doc.site.type-doc", 10)
    ctx.require("doc.site.attr-doc", 10)
    ctx.require("doc.site.namespace-doc", 2)
    ctx.require("doc.site.type-doc@type-page", 5)
    ctx.require("const.checked", 5)
    ctx.require("link.cross-root", 3)
    ctx.require("link.on_nested_namespace_page", 3)
    ctx.require("link.in_array", 3)
    ctx.require("page.has_service", 3)
    ctx.require("universe.multi_version", 1)
    ctx.require("universe.kind.union", 1)


def replay(ctx: core.Ctx, case):
    selfcheck()
    r = check_universe(case)
    for key, nontrivial, classes, sample in r["pages"]:
        ctx.case(key, nontrivial, sample=sample, classes=classes)
    return r["fails"]
