"""
Reference codec: a direct transcription of the Cyphal specification's DSDL serialization rules over the PyDSDL type model
(DESIGN.md §3.3).  Written for clarity, shares no code with nunavut or with pydsdl._serdes (which is used to cross-check
this module on every case: `cross_check_*`).

Neutral value form:  bool/int/float for primitives; list for arrays (utf8/byte arrays are lists of ints); dict
{field name: value} for structures (padding excluded); one-key dict {option name: value} for unions.
"""
from __future__ import annotations

import math
import struct
import typing

import pydsdl

BAD_ARRAY_LENGTH = "BAD_ARRAY_LENGTH"
BAD_UNION_TAG = "BAD_UNION_TAG"
BAD_DELIMITER_HEADER = "BAD_DELIMITER_HEADER"


class RefError(Exception):
    def __init__(self, kind: str, detail: str = ""):
        super().__init__(f"{kind}: {detail}")
        self.kind = kind


FMT = {16: "<e", 32: "<f", 64: "<d"}
FMAX = {16: 65504.0, 32: 3.4028234663852886e38, 64: 1.7976931348623157e308}


def inner(t):
    return t.inner_type if isinstance(t, pydsdl.DelimitedType) else t


def codec_types(types: typing.Iterable[pydsdl.CompositeType]) -> typing.List[pydsdl.CompositeType]:
    out = []
    for t in types:
        if isinstance(t, pydsdl.ServiceType):
            out += [t.request_type, t.response_type]
        else:
            out.append(t)
    return out


# ------------------------------------------------------------------------------------------------------------ floats
def float_pack(bits: int, v: float) -> int:
    """IEEE-754 round-to-nearest-even packing; overflow -> infinity."""
    try:
        return int.from_bytes(struct.pack(FMT[bits], v), "little")
    except OverflowError:
        return int.from_bytes(struct.pack(FMT[bits], math.copysign(math.inf, v)), "little")


def float_unpack(bits: int, raw: int) -> float:
    return struct.unpack(FMT[bits], raw.to_bytes(bits // 8, "little"))[0]


def float_exact(bits: int, v: float) -> bool:
    if math.isnan(v) or math.isinf(v):
        return True
    try:
        return struct.unpack(FMT[bits], struct.pack(FMT[bits], v))[0] == v
    except OverflowError:
        return False


def cast_float(t: pydsdl.FloatType, v: float) -> float:
    """Cast-mode adjustment of an in-memory value (before rounding to the wire format)."""
    if math.isnan(v) or math.isinf(v):
        return v
    m = FMAX[t.bit_length]
    if t.cast_mode == pydsdl.PrimitiveType.CastMode.SATURATED:
        return max(-m, min(m, v))
    if abs(v) > m and not float_exact(t.bit_length, v):
        # truncated: out-of-range finite values become infinity (values between max and the rounding threshold are
        # inexact and handled by the faithful-rounding tolerance)
        pass
    return v


def cast_int(t, v: int) -> int:
    lo, hi = int(t.inclusive_value_range.min), int(t.inclusive_value_range.max)
    if t.cast_mode == pydsdl.PrimitiveType.CastMode.SATURATED:
        return max(lo, min(hi, v))
    return v & ((1 << t.bit_length) - 1)  # truncated is only defined for unsigned


# ------------------------------------------------------------------------------------------------------------ writer
class W:
    def __init__(self):
        self.acc = 0
        self.off = 0
        self.segments: typing.List[typing.Tuple[str, int, int, typing.Any]] = []  # (kind, bit offset, bit length, info)

    def put(self, raw: int, n: int, kind: str = "", info=None):
        assert 0 <= raw < (1 << n) if n else raw == 0
        self.acc |= raw << self.off
        if kind:
            self.segments.append((kind, self.off, n, info))
        self.off += n

    def align(self, a: int):
        pad = (-self.off) % a
        if pad:
            self.put(0, pad, "pad")

    def bytes(self) -> bytes:
        return self.acc.to_bytes((self.off + 7) // 8, "little")


def _ser_prim(w: W, t, v):
    if isinstance(t, pydsdl.BooleanType):
        w.put(1 if v else 0, 1, "bool")
    elif isinstance(t, pydsdl.FloatType):
        w.put(float_pack(t.bit_length, cast_float(t, float(v))), t.bit_length, "float")
    elif isinstance(t, pydsdl.SignedIntegerType):
        w.put(cast_int(t, int(v)) & ((1 << t.bit_length) - 1), t.bit_length, "int")
    elif isinstance(t, pydsdl.UnsignedIntegerType):  # includes byte / utf8
        w.put(cast_int(t, int(v)), t.bit_length, "uint")
    else:
        raise TypeError(t)


def _ser_any(w: W, t, v):
    if isinstance(t, pydsdl.PrimitiveType):
        _ser_prim(w, t, v)
    elif isinstance(t, pydsdl.VoidType):
        w.put(0, t.bit_length, "void")
    elif isinstance(t, pydsdl.FixedLengthArrayType):
        if len(v) != t.capacity:
            raise RefError("NO_REPRESENTATION", f"fixed array of {len(v)} != {t.capacity}")
        for e in v:
            w.align(t.element_type.alignment_requirement)
            _ser_any(w, t.element_type, e)
    elif isinstance(t, pydsdl.VariableLengthArrayType):
        if len(v) > t.capacity:
            raise RefError(BAD_ARRAY_LENGTH, f"{len(v)} > {t.capacity}")
        w.put(len(v), t.length_field_type.bit_length, "length", t.capacity)
        for e in v:
            w.align(t.element_type.alignment_requirement)
            _ser_any(w, t.element_type, e)
    elif isinstance(t, pydsdl.CompositeType):
        w.align(t.alignment_requirement)
        if isinstance(t, pydsdl.DelimitedType):
            sub = W()
            _ser_composite(sub, t.inner_type, v)
            body = sub.bytes()
            w.put(len(body), t.delimiter_header_type.bit_length, "delimiter", len(body))
            base = w.off
            for kind, off, n, info in sub.segments:
                w.segments.append((kind, base + off, n, info))
            w.put(int.from_bytes(body, "little"), len(body) * 8)
        else:
            _ser_composite(w, t, v)
    else:
        raise TypeError(t)


def _ser_composite(w: W, t, v):
    assert w.off % 8 == 0
    if isinstance(t, pydsdl.UnionType):
        if not isinstance(v, dict) or len(v) != 1:
            raise RefError(BAD_UNION_TAG, "no active option")
        (name, val), = v.items()
        if name == "__tag__":
            raise RefError(BAD_UNION_TAG, f"invalid tag {val}")
        idx = [f.name for f in t.fields].index(name)
        w.put(idx, t.tag_field_type.bit_length, "tag", len(t.fields))
        ft = t.fields[idx].data_type
        w.align(ft.alignment_requirement)
        _ser_any(w, ft, val)
    else:
        for f in t.fields:
            w.align(f.data_type.alignment_requirement)
            if isinstance(f, pydsdl.PaddingField):
                w.put(0, f.data_type.bit_length, "void")
            else:
                _ser_any(w, f.data_type, v[f.name])
    w.align(8)


def serialize(t: pydsdl.CompositeType, value) -> typing.Tuple[bytes, list]:
    """Top-level objects carry no delimiter header."""
    w = W()
    _ser_composite(w, inner(t), value)
    return w.bytes(), w.segments


# ------------------------------------------------------------------------------------------------------------ reader
class R:
    def __init__(self, data: bytes):
        self.data = data
        self.val = int.from_bytes(data, "little")
        self.nbits = len(data) * 8
        self.off = 0

    def get(self, n: int) -> int:
        r = (self.val >> self.off) & ((1 << n) - 1) if self.off < self.nbits else 0  # bits past the end are zero
        self.off += n
        return r

    def align(self, a: int):
        self.off += (-self.off) % a

    def remaining(self) -> int:
        return max(0, self.nbits - self.off)


def _des_prim(r: R, t):
    if isinstance(t, pydsdl.BooleanType):
        return bool(r.get(1))
    if isinstance(t, pydsdl.FloatType):
        return float_unpack(t.bit_length, r.get(t.bit_length))
    if isinstance(t, pydsdl.SignedIntegerType):
        raw = r.get(t.bit_length)
        return raw - (1 << t.bit_length) if raw >> (t.bit_length - 1) else raw
    if isinstance(t, pydsdl.UnsignedIntegerType):
        return r.get(t.bit_length)
    raise TypeError(t)


def _des_any(r: R, t):
    if isinstance(t, pydsdl.PrimitiveType):
        return _des_prim(r, t)
    if isinstance(t, pydsdl.VoidType):
        r.get(t.bit_length)
        return None
    if isinstance(t, pydsdl.ArrayType):
        if isinstance(t, pydsdl.VariableLengthArrayType):
            n = r.get(t.length_field_type.bit_length)
            if n > t.capacity:
                raise RefError(BAD_ARRAY_LENGTH, f"{n} > {t.capacity}")
        else:
            n = t.capacity
        out = []
        for _ in range(n):
            r.align(t.element_type.alignment_requirement)
            out.append(_des_any(r, t.element_type))
        return out
    if isinstance(t, pydsdl.CompositeType):
        r.align(t.alignment_requirement)
        if isinstance(t, pydsdl.DelimitedType):
            nbytes = r.get(t.delimiter_header_type.bit_length)
            if nbytes * 8 > r.remaining():
                raise RefError(BAD_DELIMITER_HEADER, f"{nbytes} bytes > {r.remaining()} bits remaining")
            start = r.off // 8
            sub = R(r.data[start : start + nbytes])  # the nested object sees exactly its own bytes (zero-extended)
            v = _des_composite(sub, t.inner_type)
            r.off += nbytes * 8  # implicit truncation: whatever the nested object did not consume is skipped
            return v
        return _des_composite(r, t)
    raise TypeError(t)


def _des_composite(r: R, t):
    if isinstance(t, pydsdl.UnionType):
        tag = r.get(t.tag_field_type.bit_length)
        if tag >= len(t.fields):
            raise RefError(BAD_UNION_TAG, f"{tag} >= {len(t.fields)}")
        f = t.fields[tag]
        r.align(f.data_type.alignment_requirement)
        v = {f.name: _des_any(r, f.data_type)}
    else:
        v = {}
        for f in t.fields:
            r.align(f.data_type.alignment_requirement)
            if isinstance(f, pydsdl.PaddingField):
                r.get(f.data_type.bit_length)
            else:
                v[f.name] = _des_any(r, f.data_type)
    r.align(8)
    return v


def deserialize(t: pydsdl.CompositeType, data: bytes) -> typing.Tuple[typing.Any, int]:
    """Returns (value, consumed bytes = min(ceil(consumed bits / 8), len(data)))."""
    r = R(bytes(data))
    v = _des_composite(r, inner(t))
    return v, min((r.off + 7) // 8, len(data))


# ------------------------------------------------------------------------------------------------- value utilities
def default_value(t):
    if isinstance(t, pydsdl.BooleanType):
        return False
    if isinstance(t, pydsdl.FloatType):
        return 0.0
    if isinstance(t, pydsdl.PrimitiveType):
        return 0
    if isinstance(t, pydsdl.FixedLengthArrayType):
        return [default_value(t.element_type) for _ in range(t.capacity)]
    if isinstance(t, pydsdl.VariableLengthArrayType):
        return []
    t = inner(t)
    if isinstance(t, pydsdl.UnionType):
        return {t.fields[0].name: default_value(t.fields[0].data_type)}
    return {f.name: default_value(f.data_type) for f in t.fields_except_padding}


def adjust(t, v):
    """The value a decode of serialize(v) yields: per-primitive cast adjustment, floats rounded to the wire format."""
    if isinstance(t, pydsdl.BooleanType):
        return bool(v)
    if isinstance(t, pydsdl.FloatType):
        return float_unpack(t.bit_length, float_pack(t.bit_length, cast_float(t, float(v))))
    if isinstance(t, pydsdl.SignedIntegerType):
        return cast_int(t, int(v))
    if isinstance(t, pydsdl.UnsignedIntegerType):
        return cast_int(t, int(v))
    if isinstance(t, pydsdl.ArrayType):
        return [adjust(t.element_type, e) for e in v]
    t = inner(t)
    if isinstance(t, pydsdl.UnionType):
        (name, val), = v.items()
        f = [f for f in t.fields if f.name == name][0]
        return {name: adjust(f.data_type, val)}
    return {f.name: adjust(f.data_type, v[f.name]) for f in t.fields_except_padding}


def values_equal(t, a, b, faithful_float: bool = False, original=None) -> bool:
    """Exact equality; any NaN equals any NaN."""
    if isinstance(t, pydsdl.FloatType):
        if math.isnan(a) or math.isnan(b):
            return math.isnan(a) and math.isnan(b)
        return a == b and (a != 0 or math.copysign(1, a) == math.copysign(1, b))
    if isinstance(t, pydsdl.PrimitiveType):
        return a == b
    if isinstance(t, pydsdl.ArrayType):
        return len(a) == len(b) and all(values_equal(t.element_type, x, y) for x, y in zip(a, b))
    t = inner(t)
    if isinstance(t, pydsdl.UnionType):
        if list(a) != list(b):
            return False
        (name, va), = a.items()
        f = [f for f in t.fields if f.name == name][0]
        return values_equal(f.data_type, va, b[name])
    return all(values_equal(f.data_type, a[f.name], b[f.name]) for f in t.fields_except_padding)


def has_inexact_float(t, v) -> bool:
    """True if some float field holds a value that its wire format cannot represent exactly (after saturation)."""
    if isinstance(t, pydsdl.FloatType):
        return not float_exact(t.bit_length, cast_float(t, float(v)))
    if isinstance(t, pydsdl.PrimitiveType):
        return False
    if isinstance(t, pydsdl.ArrayType):
        return any(has_inexact_float(t.element_type, e) for e in v)
    t = inner(t)
    if isinstance(t, pydsdl.UnionType):
        (name, val), = v.items()
        f = [f for f in t.fields if f.name == name][0]
        return has_inexact_float(f.data_type, val)
    return any(has_inexact_float(f.data_type, v[f.name]) for f in t.fields_except_padding)


def _neighbours(bits: int, x: float) -> typing.Tuple[float, float]:
    """Largest representable <= x and smallest representable >= x in the given format (infinities included)."""
    near = float_unpack(bits, float_pack(bits, x))
    if near == x:
        return near, near
    raw = float_pack(bits, near)
    sign = raw >> (bits - 1)
    mag = raw & ((1 << (bits - 1)) - 1)

    def mk(m, s=sign):
        return float_unpack(bits, (s << (bits - 1)) | m)

    if math.isinf(near):
        other = math.copysign(FMAX[bits], near)
    elif (near < x) == (near >= 0) or (near == 0 and x > 0):
        other = mk(mag + 1) if not (near == 0 and x > 0) else float_unpack(bits, 1)
    else:
        other = mk(mag - 1) if mag > 0 else float_unpack(bits, (1 << (bits - 1)) | 1 if x < 0 else 1)
    lo, hi = (near, other) if near < other else (other, near)
    return lo, hi


def values_faithful(t, original, decoded) -> bool:
    """`decoded` equals adjust(original) except that inexact floats may be either neighbouring representable value."""
    if isinstance(t, pydsdl.FloatType):
        o = cast_float(t, float(original))
        if math.isnan(o) or math.isnan(decoded):
            return math.isnan(o) and math.isnan(decoded)
        lo, hi = _neighbours(t.bit_length, o)
        return decoded in (lo, hi)
    if isinstance(t, pydsdl.PrimitiveType):
        return adjust(t, original) == decoded
    if isinstance(t, pydsdl.ArrayType):
        return len(original) == len(decoded) and all(values_faithful(t.element_type, x, y) for x, y in zip(original, decoded))
    t = inner(t)
    if isinstance(t, pydsdl.UnionType):
        if list(original) != list(decoded):
            return False
        (name, va), = original.items()
        f = [f for f in t.fields if f.name == name][0]
        return values_faithful(f.data_type, va, decoded[name])
    return all(values_faithful(f.data_type, original[f.name], decoded[f.name]) for f in t.fields_except_padding)


# -------------------------------------------------------------------------------------------- pydsdl cross-validation
def _to_pydsdl(t, v):
    if isinstance(t, pydsdl.ArrayType):
        if isinstance(t.element_type, (pydsdl.UTF8Type, pydsdl.ByteType)):
            return bytes(int(x) & 0xFF for x in v) if all(0 <= int(x) <= 255 for x in v) else list(v)
        return [_to_pydsdl(t.element_type, e) for e in v]
    if isinstance(t, pydsdl.CompositeType):
        t = inner(t)
        if isinstance(t, pydsdl.UnionType):
            (name, val), = v.items()
            if name == "__tag__":
                return {"__no_such_option__": 0}
            f = [f for f in t.fields if f.name == name][0]
            return {name: _to_pydsdl(f.data_type, val)}
        return {f.name: _to_pydsdl(f.data_type, v[f.name]) for f in t.fields_except_padding}
    return v


def _from_pydsdl(t, v):
    if isinstance(t, pydsdl.ArrayType):
        if isinstance(v, str):
            return list(v.encode("utf-8"))
        if isinstance(v, (bytes, bytearray)):
            return list(v)
        return [_from_pydsdl(t.element_type, e) for e in v]
    if isinstance(t, pydsdl.CompositeType):
        t = inner(t)
        if isinstance(t, pydsdl.UnionType):
            (name, val), = v.items()
            f = [f for f in t.fields if f.name == name][0]
            return {name: _from_pydsdl(f.data_type, val)}
        return {f.name: _from_pydsdl(f.data_type, v[f.name]) for f in t.fields_except_padding}
    return v


def _has_utf8(t) -> bool:
    if isinstance(t, pydsdl.ArrayType):
        return isinstance(t.element_type, pydsdl.UTF8Type) or _has_utf8(t.element_type)
    if isinstance(t, pydsdl.CompositeType):
        return any(_has_utf8(f.data_type) for f in inner(t).fields_except_padding)
    return False


def cross_check_serialize(t, value) -> typing.Optional[str]:
    """None if pydsdl's independent codec agrees with this module (or the case is outside its domain); else a message."""
    import pydsdl._serdes as sd

    mine: typing.Any
    try:
        mine = serialize(t, value)[0]
    except RefError as e:
        mine = e.kind
    try:
        theirs: typing.Any = pydsdl.serialize(t, _to_pydsdl(t, value))
    except sd.ArrayLengthError:
        theirs = BAD_ARRAY_LENGTH
    except (sd.UnionFieldError, sd.UnionTagError):
        theirs = BAD_UNION_TAG
    except UnicodeDecodeError:
        return None  # pydsdl validates UTF-8; the wire format does not
    except (ValueError, TypeError, OverflowError):
        return None
    if mine != theirs:
        return f"serialize: refmodel {mine!r} vs pydsdl {theirs!r} for {value!r}"
    return None


def cross_check_deserialize(t, data: bytes) -> typing.Optional[str]:
    import pydsdl._serdes as sd

    mine: typing.Any
    try:
        mine = deserialize(t, data)[0]
    except RefError as e:
        mine = e.kind
    try:
        theirs: typing.Any = _from_pydsdl(t, pydsdl.deserialize(t, data))
    except sd.ArrayLengthError:
        theirs = BAD_ARRAY_LENGTH
    except sd.UnionTagError:
        theirs = BAD_UNION_TAG
    except sd.DelimiterHeaderError:
        theirs = BAD_DELIMITER_HEADER
    except UnicodeDecodeError:
        return None
    if isinstance(mine, str) or isinstance(theirs, str):
        if mine != theirs:
            # when several errors are present the order of detection is the same (left to right), so kinds must agree
            return f"deserialize: refmodel {mine!r} vs pydsdl {theirs!r} for {data.hex()}"
        return None
    if not values_equal(t, mine, theirs):
        return f"deserialize: refmodel {mine!r} vs pydsdl {theirs!r} for {data.hex()}"
    return None
