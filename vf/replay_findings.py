"""
python -m vf.replay_findings  -- seconds-long replay tier over the committed reproductions:
every `fixed` entry of known_findings.json must replay as "property held", every `known` entry must still reproduce.
"""
import json
import pathlib
import subprocess
import sys
from concurrent.futures import ThreadPoolExecutor

VERIF = pathlib.Path(__file__).resolve().parent.parent


def one(e):
    if not e.get("repro"):
        return e, None, ""
    p = subprocess.run([str(VERIF / "check"), e["property"], "--replay", str(VERIF / e["repro"])], capture_output=True, text=True)
    return e, p.returncode, (p.stdout + p.stderr)[-400:]


def main():
    entries = json.loads((VERIF / "known_findings.json").read_text())["findings"]
    bad = 0
    with ThreadPoolExecutor(6) as ex:
        for e, rc, tail in ex.map(one, entries):
            want = 0 if e["status"] == "fixed" else 1
            if rc is None:
                print(f"n/a {e['property']} {e['status']:6} (no single-case replay; covered by the check's fixed corpus) {e['signature'][:70]}")
                continue
            ok = rc == want
            print(f"{'ok ' if ok else 'BAD'} {e['property']} {e['status']:6} rc={rc} {e['signature'][:70]}")
            if not ok:
                bad += 1
                print("     ", tail.replace("\n", "\n      "))
    return 1 if bad else 0


if __name__ == "__main__":
    sys.exit(main())
