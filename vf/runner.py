"""
./check <ID> [--tier quick|thorough] [--replay FILE]

Loads vf.props.<id> which must expose
    run(ctx)                 -- explore, record failures with ctx.fail(), counters with ctx.case()
    replay(ctx, case) -> [(signature, what)]   -- re-execute one saved case without Hypothesis
and optionally LEVEL ("exploration" by default).
"""
from __future__ import annotations

import argparse
import importlib
import os
import sys
import traceback

from . import core


def main(argv=None) -> int:
    ap = argparse.ArgumentParser()
    ap.add_argument("prop")
    ap.add_argument("--tier", default=os.environ.get("VERIF_TIER", "quick"), choices=["quick", "thorough"])
    ap.add_argument("--replay", default=None)
    ap.add_argument("--seed", type=int, default=None)
    args = ap.parse_args(argv)
    seed = args.seed if args.seed is not None else int(os.environ.get("VERIF_SEED", "1") or "1")
    prop = args.prop.upper()
    mod = importlib.import_module(f"vf.props.{prop.lower()}")
    ctx = core.Ctx(prop, args.tier, seed, getattr(mod, "LEVEL", "exploration"))
    if args.replay:
        try:
            return core.run_replay(ctx, args.replay, lambda case: mod.replay(ctx, case))
        except Exception:
            traceback.print_exc()
            return 2
    err = None
    try:
        mod.run(ctx)
    except core.HarnessError as e:
        traceback.print_exc()
        err = f"HarnessError: {e}"
    except Exception as e:  # machinery bug: never a violation
        traceback.print_exc()
        err = f"{type(e).__name__}: {e}"
    return ctx.finish(err)


if __name__ == "__main__":
    sys.exit(main())
