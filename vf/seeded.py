"""
Run the registered checks against the seeded changes kept under /verif/seeded/<id>/ (patch.diff, demo, meta.json).

  python -m vf.seeded [ID ...] [--tier quick|thorough] [--props C01,C02]

Each patch is applied to a scratch copy of /repo's tracked sources (never to /repo itself), the check(s) named in
meta.json["property"] (plus any given with --props) run against the copy with VERIF_REPO, and the outcome
(exit code, signatures) is stored in meta.json["check_runs"].  Exit 0 iff every seeded change is detected by at least one
check of the property it breaks.
"""
from __future__ import annotations

import argparse
import json
import os
import pathlib
import shutil
import subprocess
import sys
import tempfile
import time
from concurrent.futures import ThreadPoolExecutor

VERIF = pathlib.Path(__file__).resolve().parent.parent
SEEDED = VERIF / "seeded"


def scratch_with_patch(patch: pathlib.Path) -> pathlib.Path:
    tmp = pathlib.Path(tempfile.mkdtemp(prefix="vf-seed-"))
    shutil.copytree("/repo/src", tmp / "src", ignore=shutil.ignore_patterns("__pycache__"))
    if os.path.isdir("/repo/verification/cmake"):
        shutil.copytree("/repo/verification/cmake", tmp / "verification" / "cmake")
    p = subprocess.run(["patch", "-p1", "--no-backup-if-mismatch", "-i", str(patch)], cwd=tmp, capture_output=True, text=True)
    if p.returncode != 0:
        shutil.rmtree(tmp, ignore_errors=True)
        raise RuntimeError(f"patch does not apply: {p.stdout[-400:]} {p.stderr[-400:]}")
    return tmp


def run_one(sid: str, tier: str, extra_props):
    d = SEEDED / sid
    meta = json.loads((d / "meta.json").read_text())
    props = sorted(set([meta["property"]] + list(extra_props)))
    try:
        tmp = scratch_with_patch(d / "patch.diff")
    except RuntimeError as e:
        return sid, [{"property": props[0], "result": f"PATCH-STALE: {e}"}]
    runs = []
    try:
        for prop in props:
            env = dict(os.environ, VERIF_REPO=str(tmp), VF_NO_SHRINK="1", VF_EVIDENCE_DIR=str(tmp / "evidence"), VF_REPLAY_DIR=str(tmp / "replays"), VERIF_SEED=os.environ.get("VERIF_SEED", "1"))
            t0 = time.time()
            p = subprocess.run([str(VERIF / "check"), prop, "--tier", tier], env=env, capture_output=True, text=True)
            sigs = [l.strip()[len("signature: "):] for l in p.stdout.splitlines() if l.strip().startswith("signature:")]
            runs.append({"property": prop, "tier": tier, "seed": env["VERIF_SEED"], "exit": p.returncode, "result": "DETECTED" if p.returncode == 1 else ("MISSED" if p.returncode == 0 else "HARNESS-ERROR"), "signatures": sigs[:6], "wall_s": round(time.time() - t0, 1), "tail": "" if p.returncode == 1 else (p.stdout[-300:] + p.stderr[-500:])})
    finally:
        shutil.rmtree(tmp, ignore_errors=True)
    return sid, runs


def main():
    ap = argparse.ArgumentParser()
    ap.add_argument("ids", nargs="*")
    ap.add_argument("--tier", default="quick")
    ap.add_argument("--props", default="")
    ap.add_argument("--jobs", type=int, default=3)
    a = ap.parse_args()
    ids = a.ids or sorted(p.name for p in SEEDED.iterdir() if (p / "meta.json").exists())
    extra = [x for x in a.props.split(",") if x]
    ok = True
    with ThreadPoolExecutor(a.jobs) as ex:
        for sid, runs in ex.map(lambda s: run_one(s, a.tier, extra), ids):
            mp = SEEDED / sid / "meta.json"
            meta = json.loads(mp.read_text())
            hist = [r for r in meta.get("check_runs", []) if not any(r.get("property") == n["property"] and r.get("tier") == n.get("tier") for n in runs)]
            meta["check_runs"] = hist + [{k: v for k, v in r.items() if k != "tail"} for r in runs]
            mp.write_text(json.dumps(meta, indent=1) + "\n")
            for r in runs:
                print(f"{sid:12} {r['property']:4} {r['result']:14} {r.get('wall_s', '')!s:6} {r.get('signatures', '')}")
                if r["result"] not in ("DETECTED",):
                    print("      ", r.get("tail", "")[-500:])
            if not any(r["result"] == "DETECTED" and r["property"] == meta["property"] for r in runs) and not meta.get("declined"):
                ok = False
    write_readme()
    return 0 if ok else 1


def write_readme():
    """seeded/README.md: one row per seeded change."""
    rows = []
    for d in sorted(p for p in SEEDED.iterdir() if (p / "meta.json").exists()):
        m = json.loads((d / "meta.json").read_text())
        runs = [r for r in m.get("check_runs", []) if r.get("property") == m["property"]]
        det = [r for r in runs if r.get("result") == "DETECTED"]
        first = (m.get("needs_to_manifest") or "").strip().splitlines()
        title = first[0][:110] if first else ""
        sig = (det[0]["signatures"][0] if det and det[0].get("signatures") else "")[:90]
        other = [r for r in m.get("check_runs", []) if r.get("property") != m["property"] and r.get("result") == "DETECTED"]
        if not det and other:
            # the change breaks the property it was written for only through a history / route that another property owns
            det = other[:1]
            sig = (det[0]["signatures"][0] if det[0].get("signatures") else "")[:90]
            status = f"detected by {det[0]['property']}"
        else:
            status = "detected" if det else ("not flagged on purpose" if m.get("declined") else "MISSED")
        rows.append(f"| {m['id']} | {m['property']} | {title} | {status} | `{sig}` | {m.get('strengthened', '') or m.get('declined', '')} |")
    text = (
        "# Independently seeded changes\n\n"
        "Each directory holds a change to OpenCyphal/nunavut written by a fresh sub-agent that saw only the text of one property and a\n"
        "scratch worktree (nothing from /verif): `patch.diff`, `demo.py` (passes without / fails with the change), `notes.md`,\n"
        "`meta.json` (what it needs to manifest, what was run to confirm it, outcome of the registered check).  Every change was\n"
        "confirmed first (`python -m vf.verify_seed`): applies to a clean checkout, the pinned suite passes the same 415 ids, the\n"
        "demonstration flips.  `python -m vf.seeded` re-runs the quick checks against all of them on scratch copies.\n\n"
        "| id | property | change (first line of the author's notes) | quick check | first signature | check strengthened because of it |\n|---|---|---|---|---|---|\n"
        + "\n".join(rows)
        + "\n"
    )
    (SEEDED / "README.md").write_text(text)


if __name__ == "__main__":
    sys.exit(main())
