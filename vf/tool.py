"""Running the nunavut CLI from the working tree: in-process and as a (perturbable) subprocess."""
from __future__ import annotations

import contextlib
import io
import os
import pathlib
import subprocess
import sys
import typing

from . import core

PY = "/venv/bin/python"
WRAP = str(core.VERIF / "vf" / "nnvg_wrap.py")


@contextlib.contextmanager
def fake_clock(t: typing.Optional[float]):
    """Inside the block time.time()/time_ns()/datetime.now()/utcnow()/today() report t (harness-owned clock)."""
    if t is None:
        yield
        return
    import datetime as _dt
    import time as _time

    real_time, real_ns, real_dt = _time.time, _time.time_ns, _dt.datetime

    class FakeDateTime(real_dt):  # type: ignore
        @classmethod
        def now(cls, tz=None):
            return real_dt.fromtimestamp(t, tz)

        @classmethod
        def utcnow(cls):
            return real_dt.fromtimestamp(t, _dt.timezone.utc).replace(tzinfo=None)

        @classmethod
        def today(cls):
            return real_dt.fromtimestamp(t)

    _time.time = lambda: t  # type: ignore
    _time.time_ns = lambda: int(t * 1e9)  # type: ignore
    _dt.datetime = FakeDateTime  # type: ignore
    try:
        yield
    finally:
        _time.time, _time.time_ns, _dt.datetime = real_time, real_ns, real_dt  # type: ignore


def run_inproc(argv: typing.List[str], cwd: typing.Optional[str] = None, fake_time: typing.Optional[float] = None) -> typing.Tuple[int, str, str]:
    """python -m nunavut <argv> inside this interpreter. Returns (rc, stdout, stderr)."""
    import logging

    import nunavut.cli

    out, err = io.StringIO(), io.StringIO()
    old_argv = sys.argv
    old_cwd = os.getcwd()
    rc = 0
    try:
        sys.argv = ["nnvg"] + [str(a) for a in argv]
        if cwd:
            os.chdir(cwd)
        with contextlib.redirect_stdout(out), contextlib.redirect_stderr(err), fake_clock(fake_time):
            try:
                rc = nunavut.cli.main() or 0
            except SystemExit as e:
                rc = e.code if isinstance(e.code, int) else (0 if e.code is None else 1)
            except BaseException as e:  # what the process would die of
                err.write(f"{type(e).__name__}: {e}\n")
                rc = 1
    finally:
        sys.argv = old_argv
        os.chdir(old_cwd)
        # main() calls logging.basicConfig on the redirected stream: drop those handlers again
        root = logging.getLogger()
        for h in list(root.handlers):
            root.removeHandler(h)
    return rc, out.getvalue(), err.getvalue()


def run_sub(
    argv: typing.List[str],
    cwd: typing.Optional[str] = None,
    env: typing.Optional[typing.Dict[str, str]] = None,
    hashseed: typing.Optional[str] = "0",
    fake_time: typing.Optional[float] = None,
    drop_caps: bool = False,
    timeout: int = 300,
    exec_code: typing.Optional[str] = None,
) -> typing.Tuple[int, str, str]:
    """python -m nunavut <argv> (or, with exec_code, the given statements) in a fresh process, optionally with a fake clock /
    without CAP_DAC_OVERRIDE."""
    e = dict(os.environ)
    e.pop("DSDL_INCLUDE_PATH", None)
    if env:
        e.update(env)
    if hashseed is not None:
        e["PYTHONHASHSEED"] = str(hashseed)
    e["PYTHONDONTWRITEBYTECODE"] = "1"
    e["PYTHONPATH"] = str(core.REPO / "src")
    cmd = [PY, WRAP]
    if fake_time is not None:
        cmd += ["--fake-time", repr(float(fake_time))]
    if drop_caps:
        cmd += ["--drop-caps"]
    if exec_code is not None:
        cmd += ["--exec-code", exec_code]
    cmd += ["--"] + [str(a) for a in argv]
    p = subprocess.run(cmd, cwd=cwd, env=e, capture_output=True, text=True, timeout=timeout)
    return p.returncode, p.stdout, p.stderr


def snapshot(root: pathlib.Path, content: bool = True) -> typing.Dict[str, typing.Tuple]:
    """Recursive (path -> (kind, size, mtime_ns, mode, sha)) snapshot of a tree."""
    import hashlib

    snap = {}
    root = pathlib.Path(root)
    for dirpath, dirnames, filenames in os.walk(root):
        dirnames.sort()
        rel = os.path.relpath(dirpath, root)
        st = os.lstat(dirpath)
        snap[rel + "/"] = ("d", 0, st.st_mtime_ns, st.st_mode & 0o7777, "")
        for fn in sorted(filenames):
            p = os.path.join(dirpath, fn)
            st = os.lstat(p)
            sha = ""
            if content and os.path.isfile(p):
                try:
                    with open(p, "rb") as f:
                        sha = hashlib.sha256(f.read()).hexdigest()
                except PermissionError:
                    sha = "<unreadable>"
            snap[os.path.normpath(os.path.join(rel, fn))] = ("f", st.st_size, st.st_mtime_ns, st.st_mode & 0o7777, sha)
    return snap


def tree_files(root: pathlib.Path) -> typing.Dict[str, bytes]:
    out = {}
    root = pathlib.Path(root)
    for dirpath, _, filenames in os.walk(root):
        for fn in filenames:
            p = pathlib.Path(dirpath) / fn
            out[str(p.relative_to(root))] = p.read_bytes()
    return out
