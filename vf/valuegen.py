"""
Value and byte-string generators over a PyDSDL type model (DESIGN.md §3.2) and the positional word-stream encoding used
to move values in and out of the C / C++ / Python harness processes.

Word stream: every scalar is one unsigned 64-bit word (ints two's complement, bools 0/1, floats as IEEE-754 *double* bits);
fixed array = its elements; variable array = count word + elements; structure = fields in order (padding excluded);
union = tag word + the active option.
"""
from __future__ import annotations

import math
import struct
import typing

import pydsdl
from hypothesis import strategies as st

from . import refmodel
from .refmodel import inner

M64 = (1 << 64) - 1


def storage_bits(t) -> int:
    for w in (8, 16, 32, 64):
        if t.bit_length <= w:
            return w
    raise ValueError(t)


def d2w(x: float) -> int:
    return struct.unpack("<Q", struct.pack("<d", x))[0]


def w2d(w: int) -> float:
    return struct.unpack("<d", struct.pack("<Q", w & M64))[0]


# ------------------------------------------------------------------------------------------------------ word streams
def to_words(t, v, out: typing.Optional[list] = None) -> typing.List[int]:
    out = [] if out is None else out
    if isinstance(t, pydsdl.BooleanType):
        out.append(1 if v else 0)
    elif isinstance(t, pydsdl.FloatType):
        out.append(d2w(float(v)))
    elif isinstance(t, pydsdl.PrimitiveType):
        out.append(int(v) & M64)
    elif isinstance(t, pydsdl.FixedLengthArrayType):
        for e in v:
            to_words(t.element_type, e, out)
    elif isinstance(t, pydsdl.VariableLengthArrayType):
        out.append(len(v))
        for e in v:
            to_words(t.element_type, e, out)
    else:
        t = inner(t)
        if isinstance(t, pydsdl.UnionType):
            (name, val), = v.items()
            if name == "__tag__":
                out.append(int(val))
            else:
                idx = [f.name for f in t.fields].index(name)
                out.append(idx)
                to_words(t.fields[idx].data_type, val, out)
        else:
            for f in t.fields_except_padding:
                to_words(f.data_type, v[f.name], out)
    return out


def from_words(t, words: typing.List[int], pos: int = 0):
    """Returns (value, next position)."""
    if isinstance(t, pydsdl.BooleanType):
        return bool(words[pos]), pos + 1
    if isinstance(t, pydsdl.FloatType):
        return w2d(words[pos]), pos + 1
    if isinstance(t, pydsdl.SignedIntegerType):
        w = words[pos]
        return (w - (1 << 64) if w >> 63 else w), pos + 1
    if isinstance(t, pydsdl.PrimitiveType):
        return words[pos], pos + 1
    if isinstance(t, pydsdl.FixedLengthArrayType):
        out = []
        for _ in range(t.capacity):
            e, pos = from_words(t.element_type, words, pos)
            out.append(e)
        return out, pos
    if isinstance(t, pydsdl.VariableLengthArrayType):
        n = words[pos]
        pos += 1
        out = []
        for _ in range(n):
            e, pos = from_words(t.element_type, words, pos)
            out.append(e)
        return out, pos
    t = inner(t)
    if isinstance(t, pydsdl.UnionType):
        tag = words[pos]
        pos += 1
        if tag >= len(t.fields):
            return {"__tag__": tag}, pos
        f = t.fields[tag]
        e, pos = from_words(f.data_type, words, pos)
        return {f.name: e}, pos
    res = {}
    for f in t.fields_except_padding:
        res[f.name], pos = from_words(f.data_type, words, pos)
    return res, pos


def words_hex(words: typing.List[int]) -> str:
    return b"".join(struct.pack("<Q", w & M64) for w in words).hex() or "-"


def hex_words(h: str) -> typing.List[int]:
    if h == "-" or not h:
        return []
    b = bytes.fromhex(h)
    return [struct.unpack_from("<Q", b, i)[0] for i in range(0, len(b), 8)]


# ------------------------------------------------------------------------------------------------------------ values
def _float_strategy(bits: int, storage: bool):
    """Values of the storage type (float for 16/32, double for 64)."""
    sbits = 64 if bits == 64 else 32
    specials = [0.0, -0.0, math.inf, -math.inf, math.nan, 1.0, -1.0, 0.5, refmodel.FMAX[bits], -refmodel.FMAX[bits]]
    specials += [refmodel.float_unpack(bits, 1), refmodel.float_unpack(bits, (1 << (bits - 1)) | 1)]  # smallest subnormals
    exact = st.integers(0, (1 << bits) - 1).map(lambda raw: refmodel.float_unpack(bits, raw))
    parts = [st.sampled_from(specials), exact, exact]
    if storage and bits == 16:
        # float32 storage values that the 16-bit wire format cannot hold: beyond range (finite) and inexact
        beyond = st.sampled_from([65505.0, 65519.0, 65520.0, 70000.0, 1e5, -1e5, 3.4028234663852886e38, -65520.0, 1e-8, -1e-10])
        inexact = st.integers(0, (1 << 32) - 1).map(lambda raw: refmodel.float_unpack(32, raw))
        parts += [beyond, inexact]
    return st.one_of(*parts)


def _int_strategy(t, storage: bool):
    lo, hi = int(t.inclusive_value_range.min), int(t.inclusive_value_range.max)
    cands = {0, 1, hi, lo, hi - 1, lo + 1, hi // 2}
    if lo < 0:
        cands.add(-1)
    parts = [st.sampled_from(sorted(c for c in cands if lo <= c <= hi)), st.integers(lo, hi)]
    if storage:
        sb = storage_bits(t)
        slo, shi = (-(1 << (sb - 1)), (1 << (sb - 1)) - 1) if lo < 0 else (0, (1 << sb) - 1)
        if (slo, shi) != (lo, hi):
            parts.append(st.sampled_from(sorted({hi + 1, shi, slo, max(slo, lo - 1), min(shi, hi + 2)})))
            parts.append(st.integers(slo, shi))
    return st.one_of(*parts)


def value_strategy(t, storage: bool = True, invalid: bool = False, depth: int = 0, elem_storage: bool = False):
    """
    storage=True : any value of the generated C/C++ storage type (incl. out-of-range values that must saturate/truncate)
    storage=False: only values inside the field's range (what the Python setters accept)
    invalid=True : additionally array counts above capacity and invalid union tags (C / C++ source objects)
    elem_storage=True (with storage=False): UNSIGNED INTEGER ELEMENTS OF ARRAYS range over their storage type -- the generated
                   Python array setters check lengths, not element ranges, so such objects exist in every target
    """
    if isinstance(t, pydsdl.BooleanType):
        return st.booleans()
    if isinstance(t, pydsdl.FloatType):
        return _float_strategy(t.bit_length, storage)
    if isinstance(t, pydsdl.PrimitiveType):
        return _int_strategy(t, storage)
    if isinstance(t, pydsdl.ArrayType) and elem_storage and isinstance(t.element_type, pydsdl.UnsignedIntegerType):
        est = _int_strategy(t.element_type, True)
    elif isinstance(t, pydsdl.ArrayType):
        est = value_strategy(t.element_type, storage, invalid, depth + 1, elem_storage)
    if isinstance(t, pydsdl.FixedLengthArrayType):
        return st.lists(est, min_size=t.capacity, max_size=t.capacity)
    if isinstance(t, pydsdl.VariableLengthArrayType):
        cap = t.capacity
        lens = [0, 1, min(2, cap), cap] + ([min(cap, 9)] if cap > 9 else [])
        if invalid:
            lens += [cap + 1, cap + 1]
        elem = est
        return st.sampled_from(lens).flatmap(lambda n: st.lists(elem, min_size=n, max_size=n))
    t = inner(t)
    if isinstance(t, pydsdl.UnionType):
        opts = [
            value_strategy(f.data_type, storage, invalid, depth + 1, elem_storage).map(lambda v, n=f.name: {n: v}) for f in t.fields
        ]
        if invalid:
            n = len(t.fields)
            tag_max = (1 << storage_bits(t.tag_field_type)) - 1
            opts.append(st.sampled_from(sorted({n, n + 1, tag_max})).map(lambda k: {"__tag__": k}))
        return st.one_of(*opts)
    fields = t.fields_except_padding
    if not fields:
        return st.just({})
    return st.fixed_dictionaries({f.name: value_strategy(f.data_type, storage, invalid, depth + 1, elem_storage) for f in fields})


def is_invalid(t, v) -> bool:
    """Value has no representation: array longer than capacity or invalid union tag somewhere *reachable*."""
    if isinstance(t, pydsdl.PrimitiveType):
        return False
    if isinstance(t, pydsdl.ArrayType):
        if isinstance(t, pydsdl.VariableLengthArrayType) and len(v) > t.capacity:
            return True
        return any(is_invalid(t.element_type, e) for e in v)
    t = inner(t)
    if isinstance(t, pydsdl.UnionType):
        (name, val), = v.items()
        if name == "__tag__":
            return True
        f = [f for f in t.fields if f.name == name][0]
        return is_invalid(f.data_type, val)
    return any(is_invalid(f.data_type, v[f.name]) for f in t.fields_except_padding)


def value_features(t, v, out: typing.Optional[set] = None) -> typing.Set[str]:
    out = set() if out is None else out
    if isinstance(t, pydsdl.FloatType):
        if math.isnan(v):
            out.add("v.nan")
        elif math.isinf(v):
            out.add("v.inf")
        elif not refmodel.float_exact(t.bit_length, refmodel.cast_float(t, v)):
            out.add("v.inexact_float")
        elif abs(v) > refmodel.FMAX[t.bit_length]:
            out.add("v.float_out_of_range")
    elif isinstance(t, pydsdl.BooleanType):
        pass
    elif isinstance(t, pydsdl.PrimitiveType):
        lo, hi = int(t.inclusive_value_range.min), int(t.inclusive_value_range.max)
        if not lo <= v <= hi:
            out.add("v.int_out_of_range." + ("sat" if t.cast_mode == pydsdl.PrimitiveType.CastMode.SATURATED else "trunc"))
        elif v in (lo, hi):
            out.add("v.int_boundary")
    elif isinstance(t, pydsdl.ArrayType):
        if isinstance(t, pydsdl.VariableLengthArrayType):
            out.add("v.varr.empty" if not v else ("v.varr.full" if len(v) == t.capacity else ("v.varr.over" if len(v) > t.capacity else "v.varr.partial")))
        for e in v[:4]:
            value_features(t.element_type, e, out)
    else:
        t = inner(t)
        if isinstance(t, pydsdl.UnionType):
            (name, val), = v.items()
            if name == "__tag__":
                out.add("v.bad_tag")
            else:
                f = [f for f in t.fields if f.name == name][0]
                value_features(f.data_type, val, out)
        else:
            for f in t.fields_except_padding:
                value_features(f.data_type, v[f.name], out)
    return out


# ------------------------------------------------------------------------------------------------------ byte strings
@st.composite
def bytes_cases(draw, t, n_values: int = 2) -> typing.List[typing.Tuple[str, bytes]]:
    """
    A batch of (class, byte string) for type t:
      a valid encoding | b prefix/truncation | c trailing garbage | d bit flips | e random | f empty |
      g structured mutation (delimiter header / length prefix / union tag rewritten using the reference segment map)
    """
    out: typing.List[typing.Tuple[str, bytes]] = [("f", b"")]
    extent = inner(t).extent // 8 if not isinstance(t, pydsdl.DelimitedType) else t.extent // 8
    for _ in range(n_values):
        v = draw(value_strategy(t, storage=False))
        enc, segs = refmodel.serialize(t, v)
        out.append(("a", enc))
        # b: every prefix when short, else field-boundary cuts +-1 and a few drawn cuts
        if len(enc) <= 24:
            cuts = list(range(len(enc)))
        else:
            bounds = sorted({min(len(enc), max(0, (off // 8) + d)) for _, off, _, _ in segs for d in (-1, 0, 1)})
            cuts = bounds[:24] + [draw(st.integers(0, len(enc) - 1)) for _ in range(4)]
        for c in cuts:
            out.append(("b", enc[:c]))
        # c: trailing garbage
        out.append(("c", enc + draw(st.binary(min_size=1, max_size=9))))
        # d: bit flips
        if enc:
            for _ in range(3):
                b = bytearray(enc)
                for _ in range(draw(st.integers(1, 3))):
                    i = draw(st.integers(0, len(b) * 8 - 1))
                    b[i // 8] ^= 1 << (i % 8)
                out.append(("d", bytes(b)))
        # g: structured mutations
        val = int.from_bytes(enc, "little")
        for kind, off, n, info in segs:
            if kind not in ("delimiter", "length", "tag") or n == 0:
                continue
            if kind == "delimiter":
                remaining = len(enc) - (off + n) // 8
                news = sorted({0, 1, max(0, info - 1), info + 1, remaining, remaining + 1, remaining + 2, (1 << n) - 1})
            elif kind == "length":
                news = sorted({0, info, info + 1, (1 << n) - 1})
            else:
                news = sorted({info - 1, info, (1 << n) - 1})
            for nv in news:
                if nv >= (1 << n):
                    continue
                m = (val & ~(((1 << n) - 1) << off)) | (nv << off)
                mb = m.to_bytes(max(len(enc), (off + n + 7) // 8), "little")
                out.append(("g." + kind, mb))
                if kind == "delimiter":
                    # truncate / extend the payload so that the header is consistent with a shorter / longer nested object
                    end = (off + n) // 8 + nv
                    if end <= len(mb) + 8:
                        out.append(("g.delimiter.resized", (mb + b"\x00" * 8)[:end] if end > len(mb) else mb[:end]))
    # e: uniformly random strings
    for _ in range(3):
        out.append(("e", draw(st.binary(min_size=0, max_size=min(extent + 8, 96)))))
    return out
