"""
python -m vf.verify_seed <worktree> <label> <seed-id> <property>

Confirms an independently seeded change before it is kept (all in the scratch worktree, never in /repo):
  1. seed_<label>.diff applies to a clean checkout of the worktree,
  2. with it applied the pinned suite still passes exactly the BASELINE.json stable_pass ids,
  3. demo_<label>.py passes without the change and fails with it.
On success the change is stored as /verif/seeded/<seed-id>/ (patch.diff, demo.py, notes.md, meta.json).
"""
import json
import os
import pathlib
import shutil
import subprocess
import sys
import tempfile
import xml.etree.ElementTree as ET

VERIF = pathlib.Path(__file__).resolve().parent.parent


def sh(cmd, cwd, env=None, timeout=1800):
    e = dict(os.environ)
    e.update(env or {})
    return subprocess.run(cmd, cwd=cwd, env=e, capture_output=True, text=True, timeout=timeout)


def suite_passes(wt: str):
    out = tempfile.mktemp(suffix=".xml", prefix="vf-seedsuite-")
    sh(["/venv/bin/python", "-m", "pytest", "-q", "-p", "no:cacheprovider", "--timeout=900", "--continue-on-collection-errors", f"--junitxml={out}"], wt, {"PYTHONPATH": f"{wt}/src"})
    passed = set()
    for tc in ET.parse(out).getroot().iter("testcase"):
        if tc.find("failure") is None and tc.find("error") is None and tc.find("skipped") is None:
            passed.add((tc.get("classname") or "") + "::" + (tc.get("name") or ""))
    os.unlink(out)
    base = set(json.load(open("/root/.vp/BASELINE.json"))["stable_pass"])
    return sorted(base - passed)


def main():
    wt, label, sid, prop = sys.argv[1:5]
    patch = pathlib.Path(wt) / f"seed_{label}.diff"
    demo = pathlib.Path(wt) / f"demo_{label}.py"
    notes = pathlib.Path(wt) / f"seed_{label}.md"
    assert patch.exists() and demo.exists(), "deliverables missing"
    sh(["git", "checkout", "--", "."], wt)
    env = {"PYTHONPATH": f"{wt}/src", "PYTHONDONTWRITEBYTECODE": "1"}
    r0 = sh(["/venv/bin/python", demo.name], wt, env, 600)
    print(f"demo without change: rc={r0.returncode} {r0.stdout[-200:].strip()!r}")
    a = sh(["git", "apply", "--check", patch.name], wt)
    if a.returncode != 0:
        print("PATCH DOES NOT APPLY:", a.stderr[-300:])
        return 1
    sh(["git", "apply", patch.name], wt)
    try:
        missing = suite_passes(wt)
        r1 = sh(["/venv/bin/python", demo.name], wt, env, 600)
        print(f"demo with change   : rc={r1.returncode} {r1.stdout[-200:].strip()!r}")
        print(f"pinned suite with change: missing={len(missing)} {missing[:5]}")
    finally:
        sh(["git", "checkout", "--", "."], wt)
        sh(["git", "clean", "-fdq", "src"], wt)
    ok = r0.returncode == 0 and r1.returncode != 0 and not missing
    print("CONFIRMED" if ok else "REJECTED")
    if ok:
        d = VERIF / "seeded" / sid
        d.mkdir(parents=True, exist_ok=True)
        shutil.copy(patch, d / "patch.diff")
        shutil.copy(demo, d / "demo.py")
        if notes.exists():
            shutil.copy(notes, d / "notes.md")
        meta = {
            "id": sid,
            "property": prop,
            "origin": "fresh sub-agent given only the property text and a scratch worktree",
            "needs_to_manifest": (notes.read_text()[:1500] if notes.exists() else ""),
            "confirmed": {
                "patch_applies_to_clean_checkout": True,
                "pinned_suite_missing_stable_pass_ids_with_change": 0,
                "demo_rc_without_change": r0.returncode,
                "demo_rc_with_change": r1.returncode,
                "commands": [
                    f"git apply seed_{label}.diff (in a scratch worktree of /repo)",
                    "PYTHONPATH=<wt>/src /venv/bin/python -m pytest -q -p no:cacheprovider --timeout=900 --continue-on-collection-errors --junitxml=... (compared with BASELINE.json stable_pass)",
                    f"PYTHONPATH=<wt>/src /venv/bin/python demo_{label}.py (before and after)",
                ],
            },
            "check_runs": [],
        }
        (d / "meta.json").write_text(json.dumps(meta, indent=1) + "\n")
    return 0 if ok else 1


if __name__ == "__main__":
    sys.exit(main())
